import SszModel.Bitfield
/-
  bitfield.rs:648-690 / bitvector_dynamic.rs serde impls, `ethereum_serde_utils::hex::{encode, decode}`
  (0.8.1) and `hex::{encode, decode}` (0.4.3). Strings are byte lists (UTF-8).
-/
namespace Ssz

def hexDigitLower (n : Nat) : UInt8 := if n < 10 then UInt8.ofNat (48 + n) else UInt8.ofNat (87 + n)

/-- `hex::encode`: two lowercase digits per byte -/
def hexEncode : Bytes → Bytes
  | [] => []
  | x :: xs => hexDigitLower (x.toNat / 16) :: hexDigitLower (x.toNat % 16) :: hexEncode xs

/-- `hex::decode`'s digit table: `0-9`, `a-f`, `A-F` -/
def hexVal (c : UInt8) : Option Nat :=
  if 48 ≤ c.toNat ∧ c.toNat ≤ 57 then some (c.toNat - 48)
  else if 97 ≤ c.toNat ∧ c.toNat ≤ 102 then some (c.toNat - 87)
  else if 65 ≤ c.toNat ∧ c.toNat ≤ 70 then some (c.toNat - 55)
  else none

/-- `hex::decode`: odd length is an error, every pair must be two hex digits -/
def hexDecode : Bytes → Option Bytes
  | [] => some []
  | [_] => none
  | a :: b :: rest =>
    match hexVal a, hexVal b, hexDecode rest with
    | some x, some y, some r => some (UInt8.ofNat (x * 16 + y) :: r)
    | _, _, _ => none

/-- `serde_utils::hex::encode`: "0x" prefix -/
def hexEncodePrefixed (b : Bytes) : Bytes := 48 :: 120 :: hexEncode b

/-- `serde_utils::hex::decode` / `PrefixedHexVisitor`: requires the literal prefix "0x" -/
def hexDecodePrefixed : Bytes → Option Bytes
  | 48 :: 120 :: rest => hexDecode rest
  | _ => none

/-- `Serialize`: `serialize_str(&hex_encode(self.as_ssz_bytes()))` -/
def BF.serialize (k : BKind) (bf : BF) : Res Bytes := (bf.intoBytes k).map hexEncodePrefixed

/-- `Deserialize`: `PrefixedHexVisitor` then `from_ssz_bytes` -/
def BF.deserialize (k : BKind) (s : Bytes) : Res BF :=
  match hexDecodePrefixed s with
  | none => .err
  | some b => BF.fromBytes k b

end Ssz
