import SszModel.Codec
/-
  ssz_derive/src/lib.rs: which definitions `#[derive(Encode, Decode)]` accepts, and the SSZ schema
  of an accepted definition. The code the macro generates for containers / unions / tag enums /
  transparent enums is what the `Ty.container`, `Ty.union`, `Ty.tagEnum`, `Ty.transparentEnum` arms of
  `Codec.lean` model (builder path vs. `split_at` path, selector match, first-variant-that-accepts);
  this file models the macro's front end: attribute handling, skipped fields, `with` modules,
  transparent wrappers, variant counts.
-/
namespace Ssz

/-- one struct field as the macro sees it -/
structure Field where
  ty : Ty                 -- schema of the field's codec (for `#[ssz(with = "m")]`: the schema of module `m`)
  named : Bool := true
  skipSer : Bool := false -- `#[ssz(skip_serializing)]`
  skipDe : Bool := false  -- `#[ssz(skip_deserializing)]`
  attrs : Nat := 0        -- number of field-level `#[ssz(..)]` attributes
deriving Repr

/-- one enum variant: the schemas of its fields, whether they are named (`V { x: T }`), and whether
    a field-less variant is written with delimiters (`V()` / `V {}`) rather than as a unit variant -/
structure Variant where
  fields : List Ty
  named : Bool := false
  parens : Bool := false
deriving Repr

inductive StructBeh where | container | transparent | invalid
deriving Repr, DecidableEq
inductive EnumBeh where | union | tag | transparent | invalid
deriving Repr, DecidableEq

inductive Def where
  | struct_ (beh : Option StructBeh) (hasEnumAttr : Bool) (fields : List Field)
  | enum_ (beh : Option EnumBeh) (hasStructAttr : Bool) (variants : List Variant)
deriving Repr

/-- `compute_union_selectors(n)`: `Some([0, 1, .., n-1])` or a compile-time panic -/
def computeUnionSelectors (n : Nat) : Option (List Nat) :=
  if n = 0 then none                       -- "0-variant union is not permitted"
  else if n > 256 then none                -- `i.try_into::<u8>()` fails
  else if n - 1 > MAX_UNION_SELECTOR then none
  else some (List.range n)

def liveDe (fs : List Field) : List Field := fs.filter (fun f => !f.skipDe)
def liveSer (fs : List Field) : List Field := fs.filter (fun f => !f.skipSer)

/-- does `#[derive(Encode)]` expand without a compile-time panic (and type-check)? -/
def acceptsEncode : Def → Bool
  | .struct_ beh hasEnumAttr fields =>
    !hasEnumAttr && fields.all (fun f => f.attrs ≤ 1) &&
    (match beh with
     | some .invalid => false
     | some .transparent => (liveDe fields).length == 1     -- sic: counted by skip_deserializing
     | _ => (liveSer fields).all (fun f => f.named))        -- container: skipped fields are not looked at
  | .enum_ beh hasStructAttr variants =>
    !hasStructAttr &&
    (match beh with
     | none => false
     | some .invalid => false
     | some .union => variants.all (fun v => v.fields.length == 1 && !v.named) &&
                      (computeUnionSelectors variants.length).isSome
     | some .tag => variants.all (fun v => v.fields.isEmpty && !v.named && !v.parens) &&
                    (computeUnionSelectors variants.length).isSome
     | some .transparent => variants.all (fun v => v.fields.length == 1 && !v.named))

/-- does `#[derive(Decode)]` expand without a compile-time panic (and type-check)? -/
def acceptsDecode : Def → Bool
  | .struct_ beh hasEnumAttr fields =>
    !hasEnumAttr && fields.all (fun f => f.attrs ≤ 1) &&
    (match beh with
     | some .invalid => false
     | some .transparent => (liveDe fields).length == 1
     | _ => fields.all (fun f => f.named))                  -- container: every field needs a name
  | .enum_ beh hasStructAttr variants =>
    !hasStructAttr &&
    (match beh with
     | none => false
     | some .invalid => false
     | some .union => variants.all (fun v => v.fields.length == 1 && !v.named) &&
                      (computeUnionSelectors variants.length).isSome
     | some .tag => variants.all (fun v => v.fields.isEmpty && !v.named && !v.parens) &&
                    (computeUnionSelectors variants.length).isSome
     | some .transparent => variants.all (fun v => v.fields.length == 1 && !v.named))

def accepts (d : Def) : Bool := acceptsEncode d && acceptsDecode d

def variantTy (v : Variant) : Ty := v.fields.headD (.uint 0)

/-- schema the generated ENCODER implements -/
def encSchema : Def → Ty
  | .struct_ (some .transparent) _ fields => ((liveDe fields).map (·.ty)).headD (.container [])
  | .struct_ _ _ fields => .container ((liveSer fields).map (·.ty))
  | .enum_ (some .union) _ vs => .union (vs.map variantTy)
  | .enum_ (some .tag) _ vs => .tagEnum vs.length
  | .enum_ _ _ vs => .transparentEnum (vs.map variantTy)

/-- schema the generated DECODER implements -/
def decSchema : Def → Ty
  | .struct_ (some .transparent) _ fields => ((liveDe fields).map (·.ty)).headD (.container [])
  | .struct_ _ _ fields => .container ((liveDe fields).map (·.ty))
  | .enum_ (some .union) _ vs => .union (vs.map variantTy)
  | .enum_ (some .tag) _ vs => .tagEnum vs.length
  | .enum_ _ _ vs => .transparentEnum (vs.map variantTy)

mutual
/-- `<_>::default()` of a field type, as a value of the model -/
def Ty.default : Ty → Val
  | .uint _ => .uint 0
  | .bool => .bool false
  | .nonZeroUsize => .uint 1            -- (NonZeroUsize has no Default; such a field cannot be skipped)
  | .bytesN n => .bytes (List.replicate n 0)
  | .byteList => .bytes []
  | .list _ _ => .list []
  | .option _ => .none
  | .legacyOption _ => .none
  | .tuple ts => .tuple (defaults ts)
  | .container ts => .tuple (defaults ts)
  | .union ts => (match ts with | t :: _ => .union 0 t.default | [] => .union 0 (.uint 0))
  | .tagEnum _ => .tag 0
  | .transparentEnum ts => (match ts with | t :: _ => .union 0 t.default | [] => .union 0 (.uint 0))
  | .bitvector n => .bits (List.replicate n false)
  | .bitlist _ => .bits []
  | .bitvectorDyn => .bits []
def defaults : List Ty → List Val
  | [] => []
  | t :: ts => t.default :: defaults ts
end

/-- the field values the encoder looks at, from the full list of field values -/
def projectSer : List Field → List Val → List Val
  | f :: fs, v :: vs => if f.skipSer then projectSer fs vs else v :: projectSer fs vs
  | _, _ => []

def projectDe : List Field → List Val → List Val
  | f :: fs, v :: vs => if f.skipDe then projectDe fs vs else v :: projectDe fs vs
  | _, _ => []

/-- the full field list the decoder builds: decoded values for live fields, defaults for skipped ones -/
def fillDefaults : List Field → List Val → List Val
  | [], _ => []
  | f :: fs, vs =>
    if f.skipDe then f.ty.default :: fillDefaults fs vs
    else match vs with
      | v :: vs' => v :: fillDefaults fs vs'
      | [] => []

/-- the generated `as_ssz_bytes` on a struct/enum value (structs: the tuple of ALL field values) -/
def genEncode (d : Def) (v : Val) : Bytes :=
  match d, v with
  | .struct_ (some .transparent) _ fields, .tuple vs =>
      (match projectDe fields vs with | [x] => encode (encSchema d) x | _ => [])
  | .struct_ _ _ fields, .tuple vs => encode (encSchema d) (.tuple (projectSer fields vs))
  | .enum_ _ _ _, v => encode (encSchema d) v
  | _, _ => []

/-- the generated `from_ssz_bytes`, returning ALL fields of a struct -/
def genDecode (d : Def) (b : Bytes) : Res Val :=
  match d with
  | .struct_ (some .transparent) _ fields =>
      (decode (decSchema d) b).map fun x => .tuple (fillDefaults fields [x])
  | .struct_ _ _ fields =>
      (decode (decSchema d) b).map fun v => match v with
        | .tuple vs => .tuple (fillDefaults fields vs)
        | x => x
  | .enum_ _ _ _ => decode (decSchema d) b

end Ssz
