import SszModel.Encoder
/-
  decode.rs:134-328 `SszDecoderBuilder { bytes, items, offsets, items_index }` and `SszDecoder`.
  After the `fix:` commit for the `items_index` overflow, a fixed registration fails with `Err`
  when `items_index + len` overflows `usize`; since `bytes.len() < 2^64` that case is subsumed by
  the `idx' ≤ bytes.length` test below (an overflowing sum is larger than any slice length).
-/
namespace Ssz

inductive Reg where
  | fixed (n : Nat)
  | var
deriving Repr, DecidableEq

structure Builder where
  bytes : Bytes
  items : List Bytes := []
  offsets : List (Nat × Nat) := []     -- (position, offset)
  idx : Nat := 0
deriving Repr

/-- `register_type_parameterized` -/
def Builder.register (s : Builder) : Reg → Res Builder
  | .fixed n =>
    let start := s.idx
    let idx' := s.idx + n
    if idx' ≤ s.bytes.length then
      .ok { s with idx := idx', items := s.items ++ [(s.bytes.drop start).take n] }
    else .err
  | .var =>
    if s.idx > s.bytes.length then .panic   -- `&self.bytes[self.items_index..]`
    else match readOffset (s.bytes.drop s.idx) with
      | none => .err
      | some off =>
        match sanitizeOffset off (s.offsets.getLast?.map (·.2)) s.bytes.length none with
        | none => .err
        | some off => .ok { s with offsets := s.offsets ++ [(s.items.length, off)],
                                    items := s.items ++ [[]], idx := s.idx + 4 }

/-- the `windows(2)` loop plus the final `last` assignment of `finalize` -/
def setSlices (bytes : Bytes) : List (Nat × Nat) → List Bytes → List Bytes
  | [], items => items
  | [(p, o)], items => items.set p (bytes.drop o)
  | (p, o) :: (p', o') :: rest, items =>
      setSlices bytes ((p', o') :: rest) (items.set p ((bytes.drop o).take (o' - o)))

/-- `finalize` / `build` -/
def Builder.finalize (s : Builder) : Res (List Bytes) :=
  match s.offsets with
  | (_, first) :: _ =>
    if first < s.idx then .err
    else if first > s.idx then .err
    else .ok (setSlices s.bytes s.offsets s.items)
  | [] => if s.idx != s.bytes.length then .err else .ok s.items

/-- register a sequence, stopping at the first error (the documented protocol) -/
def registerAll (s : Builder) : List Reg → Res Builder
  | [] => .ok s
  | r :: rs => match s.register r with
    | .ok s' => registerAll s' rs
    | .err => .err
    | .panic => .panic

def build (regs : List Reg) (b : Bytes) : Res (List Bytes) :=
  match registerAll { bytes := b } regs with
  | .ok s => s.finalize
  | .err => .err
  | .panic => .panic

/-- `SszDecoder::decode_next_with`: `f(self.items.remove(0))` -/
def decodeNextWith {α} (items : List Bytes) (f : Bytes → Res α) : Res (α × List Bytes) :=
  match items with
  | [] => .panic
  | it :: rest => match f it with
    | .ok a => .ok (a, rest)
    | .err => .err
    | .panic => .panic

/-- The slices handed to the callbacks when `decode_next_with` is called once per callback and the caller goes on
after a refusal: the item is taken off the queue *before* the callback runs, so the callback's answer cannot
influence what the next call is handed. -/
def handed {α} : List Bytes → List (Bytes → Res α) → List Bytes
  | it :: rest, _ :: fs => it :: handed rest fs
  | _, _ => []

/-- the queue a `decode_next_with` call leaves behind, whatever its callback answers -/
def queueAfter (items : List Bytes) : List Bytes := items.tail

/-- `SszEncoder` driven with already-encoded items -/
def encodeItemsGo : List Reg → List Bytes → Enc → Enc
  | r :: rs, it :: its, e => encodeItemsGo rs its (e.append (match r with | .fixed _ => true | .var => false) it)
  | _, _, e => e

def encodeItems (regs : List Reg) (items : List Bytes) : Bytes :=
  let fixedLen := (regs.map fun | .fixed n => n | .var => 4).sum
  (encodeItemsGo regs items { offset := fixedLen, buf := [], var := [] }).finalize

def itemsFit : List Reg → List Bytes → Bool
  | [], [] => true
  | .fixed n :: rs, it :: its => it.length == n && itemsFit rs its
  | .var :: rs, _ :: its => itemsFit rs its
  | _, _ => false

end Ssz
