import SszModel.Ty
/-
  encode/impls.rs, decode/impls.rs, the SSZ impls in bitfield.rs / bitvector_dynamic.rs, legacy.rs and
  the code the derive macro generates, interpreted over the deep embedding `Ty` / `Val`.
  `sszAppend` is `Encode::ssz_append(&self, buf)` returning the buffer; `encode` is the default
  `as_ssz_bytes`; `bytesLen` is `ssz_bytes_len`; `decode` is `Decode::from_ssz_bytes`.
-/
namespace Ssz

/-! ### ordering on key values (Rust `Ord` of the key types) and collection -/

def cmpBytes : Bytes → Bytes → Ordering
  | [], [] => .eq
  | [], _ :: _ => .lt
  | _ :: _, [] => .gt
  | a :: as, b :: bs => match compare a.toNat b.toNat with
    | .eq => cmpBytes as bs
    | o => o

mutual
def Val.cmp : Val → Val → Ordering
  | .uint a, .uint b => compare a b
  | .bool a, .bool b => compare a.toNat b.toNat
  | .bytes a, .bytes b => cmpBytes a b
  | .list a, .list b => Val.cmpList a b
  | .none, .none => .eq
  | .none, .some _ => .lt
  | .some _, .none => .gt
  | .some a, .some b => Val.cmp a b
  | .tuple a, .tuple b => Val.cmpList a b
  | .tag a, .tag b => compare a b
  | .union i a, .union j b => match compare i j with
    | .eq => Val.cmp a b
    | o => o
  | _, _ => .eq
def Val.cmpList : List Val → List Val → Ordering
  | [], [] => .eq
  | [], _ :: _ => .lt
  | _ :: _, [] => .gt
  | a :: as, b :: bs => match Val.cmp a b with
    | .eq => Val.cmpList as bs
    | o => o
end

/-- key of a collection entry: the entry itself for sets, the first component for maps -/
def keyOf : CKind → Val → Val
  | .map, .tuple (k :: _) => k
  | _, v => v

/-- insertion into a list sorted by key; an entry with an equal key is replaced (later wins) -/
def insertBy (c : CKind) (x : Val) : List Val → List Val
  | [] => [x]
  | y :: ys => match Val.cmp (keyOf c x) (keyOf c y) with
    | .lt => x :: y :: ys
    | .eq => x :: ys
    | .gt => y :: insertBy c x ys

/-- The same insertion for an arbitrary comparison of *entries* (a key type whose Rust `Ord` is coarser than its
encoding, or any other order): an entry that compares equal is replaced as a whole by the later one. -/
def insertByCmp (cmp : Val → Val → Ordering) (x : Val) : List Val → List Val
  | [] => [x]
  | y :: ys => match cmp x y with
    | .lt => x :: y :: ys
    | .eq => x :: ys
    | .gt => y :: insertByCmp cmp x ys

/-- `FromIterator` for an arbitrary entry comparison -/
def collectCmp (cmp : Val → Val → Ordering) (vs : List Val) : List Val :=
  vs.foldl (fun acc x => insertByCmp cmp x acc) []

/-- `FromIterator` of the target collection, as a canonical (ascending) entry list -/
def collect : CKind → List Val → List Val
  | .vec, vs => vs
  | c, vs => vs.foldl (fun acc x => insertBy c x acc) []

def sortedBy (c : CKind) : List Val → Bool
  | [] => true
  | [_] => true
  | x :: y :: rest => Val.cmp (keyOf c x) (keyOf c y) == .lt && sortedBy c (y :: rest)

/-! ### well-typed values -/

mutual
def hasType : Ty → Val → Bool
  | .uint k, v => match v with | .uint n => n < 256 ^ k | _ => false
  | .bool, v => match v with | .bool _ => true | _ => false
  | .nonZeroUsize, v => match v with | .uint n => 0 < n && n < 2 ^ 64 | _ => false
  | .bytesN n, v => match v with | .bytes l => l.length == n | _ => false
  | .byteList, v => match v with | .bytes _ => true | _ => false
  | .list c t, v => match v with
      | .list vs => hasTypeAll t vs && (c == .vec || sortedBy c vs) | _ => false
  | .option t, v => match v with | .none => true | .some x => hasType t x | _ => false
  | .tuple ts, v => match v with | .tuple vs => hasTypes ts vs | _ => false
  | .container ts, v => match v with | .tuple vs => hasTypes ts vs | _ => false
  | .union ts, v => match v with | .union i x => hasTypeNth ts i x | _ => false
  | .tagEnum n, v => match v with | .tag i => i < n | _ => false
  | .transparentEnum ts, v => match v with | .union i x => hasTypeNth ts i x | _ => false
  | .bitvector n, v => match v with | .bits l => l.length == n | _ => false
  | .bitlist n, v => match v with | .bits l => l.length ≤ n | _ => false
  | .bitvectorDyn, v => match v with | .bits l => 0 < l.length && l.length % 8 == 0 | _ => false
  | .legacyOption t, v => match v with | .none => true | .some x => hasType t x | _ => false
def hasTypeAll (t : Ty) : List Val → Bool
  | [] => true
  | v :: vs => hasType t v && hasTypeAll t vs
def hasTypes : List Ty → List Val → Bool
  | [], [] => true
  | t :: ts, v :: vs => hasType t v && hasTypes ts vs
  | _, _ => false
def hasTypeNth : List Ty → Nat → Val → Bool
  | [], _, _ => false
  | t :: _, 0, v => hasType t v
  | _ :: ts, i+1, v => hasTypeNth ts i v
end

/-! ### encoding -/

/-- bytes a bitfield value contributes; the `Res` of `into_bytes` is flattened (its panic
    branches are proven unreachable for well-formed bitfields) -/
def bitsBytes (k : BKind) (l : List Bool) : Bytes :=
  match (BF.ofBits l).intoBytes k with
  | .ok b => b
  | _ => []

mutual
/-- `ssz_append(&self, buf)` -/
def sszAppend : Ty → Val → Bytes → Bytes
  | .uint k, .uint n, buf => buf ++ le k n
  | .bool, .bool b, buf => buf ++ [if b then 1 else 0]
  | .nonZeroUsize, .uint n, buf => buf ++ le 8 n
  | .bytesN _, .bytes l, buf => buf ++ l
  | .byteList, .bytes l, buf => buf ++ l
  | .list _ t, .list vs, buf =>
      if t.isFixed then appendAll t vs buf
      else (appendSeq t vs (Enc.container buf (vs.length * 4))).finalize
  | .option _, .none, buf => buf ++ [0]
  | .option t, .some v, buf => sszAppend t v (buf ++ [1])
  | .tuple ts, .tuple vs, buf => (appendFields ts vs (Enc.container buf (sumFixedLen ts))).finalize
  | .container ts, .tuple vs, buf => (appendFields ts vs (Enc.container buf (sumFixedLen ts))).finalize
  | .union ts, .union i v, buf => appendNth ts i v (buf ++ [UInt8.ofNat i])
  | .tagEnum _, .tag i, buf => buf ++ [UInt8.ofNat i]
  | .transparentEnum ts, .union i v, buf => appendNth ts i v buf
  | .bitvector n, .bits l, buf => buf ++ bitsBytes (.fixed n) l
  | .bitlist n, .bits l, buf => buf ++ bitsBytes (.variable n) l
  | .bitvectorDyn, .bits l, buf => buf ++ bitsBytes .dynamic l
  | .legacyOption _, .none, buf => buf ++ encodeLength 0
  | .legacyOption t, .some v, buf => sszAppend t v (buf ++ encodeLength 1)
  | _, _, buf => buf
/-- `for item in iter { item.ssz_append(buf) }` -/
def appendAll (t : Ty) : List Val → Bytes → Bytes
  | [], buf => buf
  | v :: vs, buf => appendAll t vs (sszAppend t v buf)
/-- `for item in iter { encoder.append(&item) }` for variable-size items -/
def appendSeq (t : Ty) : List Val → Enc → Enc
  | [], e => e
  | v :: vs, e => appendSeq t vs (e.appendWith false (sszAppend t v))
/-- `encoder.append(&self.field)` for each field in order -/
def appendFields : List Ty → List Val → Enc → Enc
  | t :: ts, v :: vs, e => appendFields ts vs (e.appendWith t.isFixed (sszAppend t v))
  | _, _, e => e
def appendNth : List Ty → Nat → Val → Bytes → Bytes
  | [], _, _, buf => buf
  | t :: _, 0, v, buf => sszAppend t v buf
  | _ :: ts, i+1, v, buf => appendNth ts i v buf
end

/-- default `as_ssz_bytes` -/
def encode (t : Ty) (v : Val) : Bytes := sszAppend t v []

mutual
/-- `ssz_bytes_len(&self)` -/
def bytesLen : Ty → Val → Nat
  | .uint k, _ => k
  | .bool, _ => 1
  | .nonZeroUsize, _ => 8
  | .bytesN n, _ => n
  | .byteList, .bytes l => l.length
  | .list _ t, .list vs =>
      if t.isFixed then t.fixedLen * vs.length
      else bytesLenSum t vs + 4 * vs.length
  | .option _, .none => 1
  | .option t, .some v => bytesLen t v + 1
  | .tuple ts, .tuple vs => if allFixed ts then sumFixedLen ts else bytesLenFields ts vs
  | .container ts, .tuple vs => if allFixed ts then sumFixedLen ts else bytesLenFields ts vs
  | .union ts, .union i v => bytesLenNth ts i v + 1
  | .tagEnum _, _ => 1
  | .transparentEnum ts, .union i v => bytesLenNth ts i v
  | .bitvector _, .bits l => (BF.ofBits l).bytes.length
  | .bitlist n, .bits l => (bitsBytes (.variable n) l).length
  | .bitvectorDyn, .bits l => (BF.ofBits l).bytes.length
  | .legacyOption _, .none => 4
  | .legacyOption t, .some v => (if t.isFixed then t.fixedLen else bytesLen t v) + 4
  | _, _ => 0
def bytesLenSum (t : Ty) : List Val → Nat
  | [] => 0
  | v :: vs => bytesLen t v + bytesLenSum t vs
def bytesLenFields : List Ty → List Val → Nat
  | t :: ts, v :: vs => (if t.isFixed then t.fixedLen else 4 + bytesLen t v) + bytesLenFields ts vs
  | _, _ => 0
def bytesLenNth : List Ty → Nat → Val → Nat
  | [], _, _ => 0
  | t :: _, 0, v => bytesLen t v
  | _ :: ts, i+1, v => bytesLenNth ts i v
end

/-! ### decoding -/

def regsOf : List Ty → List Reg
  | [] => []
  | t :: ts => t.reg :: regsOf ts

def decodeBits (k : BKind) (b : Bytes) : Res Val :=
  (BF.fromBytes k b).map fun bf => .bits bf.abs

mutual
/-- `from_ssz_bytes(bytes)` -/
def decode : Ty → Bytes → Res Val
  | .uint k, b => if b.length = k then .ok (.uint (fromLE b)) else .err
  | .bool, b => match b with
      | [x] => if x = 0 then .ok (.bool false) else if x = 1 then .ok (.bool true) else .err
      | _ => .err
  | .nonZeroUsize, b =>
      if b.length = 8 then (if fromLE b = 0 then .err else .ok (.uint (fromLE b))) else .err
  | .bytesN n, b => if b.length = n then .ok (.bytes b) else .err
  | .byteList, b => .ok (.bytes b)
  | .list c t, b =>
      if b.isEmpty then .ok (.list [])
      else if t.isFixed then
        if t.fixedLen = 0 then .err               -- DecodeError::ZeroLengthItem
        else match chunks t.fixedLen b with
          | .ok cs => (mapRes (decode t) cs).map fun vs => .list (collect c vs)
          | .err => .err
          | .panic => .panic
      else (listVar (decode t) b none).map fun vs => .list (collect c vs)
  | .option t, b => match splitUnionBytes b with
      | none => .err
      | some (s, body) =>
        if s = 0 then (if body.isEmpty then .ok .none else .err)
        else if s = 1 then (decode t body).map .some
        else .err
  | .tuple ts, b => match build (regsOf ts) b with
      | .ok items => (decodeItems ts items).map .tuple
      | .err => .err
      | .panic => .panic
  | .container ts, b =>
      if allFixed ts then
        if b.length ≠ sumFixedLen ts then .err
        else (decodeSplit ts b).map .tuple
      else match build (regsOf ts) b with
        | .ok items => (decodeItems ts items).map .tuple
        | .err => .err
        | .panic => .panic
  | .union ts, b => match splitUnionBytes b with
      | none => .err
      | some (s, body) => decodeNth ts s.toNat s.toNat body
  | .tagEnum n, b => match b with
      | [s] => if s.toNat < n then .ok (.tag s.toNat) else .err
      | _ => .err
  | .transparentEnum ts, b => decodeFirst ts 0 b
  | .bitvector n, b => decodeBits (.fixed n) b
  | .bitlist n, b => decodeBits (.variable n) b
  | .bitvectorDyn, b => decodeBits .dynamic b
  | .legacyOption t, b =>
      if b.length < 4 then .err
      else
        let index := fromLE (b.take 4)
        if index = 0 then (if (b.drop 4).isEmpty then .ok .none else .err)
        else if index = 1 then (decode t (b.drop 4)).map .some
        else .err
/-- `decoder.decode_next()?` for each field: `items.remove(0)` panics when nothing is left -/
def decodeItems : List Ty → List Bytes → Res (List Val)
  | [], _ => .ok []
  | _ :: _, [] => .panic
  | t :: ts, it :: its => match decode t it with
    | .ok v => (decodeItems ts its).map (v :: ·)
    | .err => .err
    | .panic => .panic
/-- all-fixed derived container: `let (slice, bytes) = bytes.split_at(len)` per field -/
def decodeSplit : List Ty → Bytes → Res (List Val)
  | [], _ => .ok []
  | t :: ts, b =>
    if t.fixedLen > b.length then .panic          -- `split_at` out of range
    else match decode t (b.take t.fixedLen) with
      | .ok v => (decodeSplit ts (b.drop t.fixedLen)).map (v :: ·)
      | .err => .err
      | .panic => .panic
/-- `match selector { 0 => T0::from_ssz_bytes(body).map(V0), 1 => .., other => Err }` -/
def decodeNth : List Ty → Nat → Nat → Bytes → Res Val
  | [], _, _, _ => .err
  | t :: _, 0, sel, body => (decode t body).map (.union sel)
  | _ :: ts, i+1, sel, body => decodeNth ts i sel body
/-- transparent enum: first variant whose decoder returns `Ok` -/
def decodeFirst : List Ty → Nat → Bytes → Res Val
  | [], _, _ => .err
  | t :: ts, i, b => match decode t b with
    | .ok v => .ok (.union i v)
    | .err => decodeFirst ts (i+1) b
    | .panic => .panic
end

/-! ### side conditions the Rust type system / the macro enforce -/

mutual
def Ty.wf : Ty → Bool
  | .uint k => k == 1 || k == 2 || k == 4 || k == 8 || k == 16 || k == 32
  | .list c t => t.wf && (c != .map || (match t with | .tuple [_, _] => true | _ => false))
  | .option t => t.wf
  | .tuple ts => wfAll ts && 2 ≤ ts.length && ts.length ≤ 12
  | .container ts => wfAll ts
  | .union ts => wfAll ts && 1 ≤ ts.length && ts.length ≤ 128
  | .tagEnum n => 1 ≤ n && n ≤ 128
  | .transparentEnum ts => wfAll ts && 1 ≤ ts.length && noneFixed ts
  | .legacyOption t => t.wf
  | _ => true
def wfAll : List Ty → Bool
  | [] => true
  | t :: ts => t.wf && wfAll ts
def noneFixed : List Ty → Bool
  | [] => true
  | t :: ts => !t.isFixed && noneFixed ts
end

end Ssz
