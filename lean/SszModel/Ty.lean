import SszModel.ListDecode
import SszModel.Bitfield
/-
  Deep embedding of the supported type algebra and of values.
-/
namespace Ssz

/-- what a decoded entry list is collected into: `Vec`/`SmallVec`, `BTreeSet`, `BTreeMap` -/
inductive CKind where
  | vec | set | map
deriving Repr, DecidableEq

inductive Ty where
  | uint (k : Nat)            -- u8..u128, usize (k = 8), U128 (16), U256 (32): k-byte little endian
  | bool
  | nonZeroUsize
  | bytesN (n : Nat)          -- [u8; N], FixedBytes<N>, Address (20), Bloom (256)
  | byteList                  -- alloy `Bytes`
  | list (c : CKind) (t : Ty) -- Vec<T> / SmallVec<[T; N]> / BTreeSet<T> / BTreeMap<K, V> with t = tuple [K, V]
  | option (t : Ty)           -- Union[None, T]
  | tuple (ts : List Ty)      -- tuple impls: always through the builder
  | container (ts : List Ty)  -- derived struct: `split_at` path when all fields are fixed-size
  | union (vs : List Ty)      -- derived `enum_behaviour = "union"`
  | tagEnum (n : Nat)         -- derived `enum_behaviour = "tag"` with n variants
  | transparentEnum (vs : List Ty)
  | bitvector (n : Nat) | bitlist (n : Nat) | bitvectorDyn
  | legacyOption (t : Ty)     -- `four_byte_option_impl!` module
deriving Repr

inductive Val where
  | uint (n : Nat)
  | bool (b : Bool)
  | bytes (l : Bytes)
  | list (l : List Val)
  | none
  | some (v : Val)
  | tuple (vs : List Val)
  | union (sel : Nat) (v : Val)
  | tag (i : Nat)
  | bits (l : List Bool)
deriving Repr

mutual
def Ty.isFixed : Ty → Bool
  | .uint _ => true
  | .bool => true
  | .nonZeroUsize => true
  | .bytesN _ => true
  | .byteList => false
  | .list _ _ => false
  | .option _ => false
  | .tuple ts => allFixed ts
  | .container ts => allFixed ts
  | .union _ => false
  | .tagEnum _ => true
  | .transparentEnum _ => false
  | .bitvector _ => true
  | .bitlist _ => false
  | .bitvectorDyn => false
  | .legacyOption _ => false
def allFixed : List Ty → Bool
  | [] => true
  | t :: ts => t.isFixed && allFixed ts
end

mutual
/-- `ssz_fixed_len()`: the length for fixed-size types, `BYTES_PER_LENGTH_OFFSET` otherwise -/
def Ty.fixedLen : Ty → Nat
  | .uint k => k
  | .bool => 1
  | .nonZeroUsize => 8
  | .bytesN n => n
  | .byteList => 4
  | .list _ _ => 4
  | .option _ => 4
  | .tuple ts => if allFixed ts then sumFixedLen ts else 4
  | .container ts => if allFixed ts then sumFixedLen ts else 4
  | .union _ => 4
  | .tagEnum _ => 1
  | .transparentEnum _ => 4
  | .bitvector n => bytesForBitLen n
  | .bitlist _ => 4
  | .bitvectorDyn => 4
  | .legacyOption _ => 4
def sumFixedLen : List Ty → Nat
  | [] => 0
  | t :: ts => t.fixedLen + sumFixedLen ts
end

def Ty.reg (t : Ty) : Reg := if t.isFixed then .fixed t.fixedLen else .var

end Ssz
