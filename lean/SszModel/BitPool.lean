import SszModel.Bitfield
/-
  The bitfield pool machine (C11): a pool of bitfields of one behaviour, and operations whose
  operands are earlier results, so that histories compose. Every operation is the corresponding
  model function of `Bitfield.lean`; this file only adds the bookkeeping of the pool.
-/
namespace Ssz

inductive BOp where
  | cap (n : Nat)                  -- with_capacity(n) / new() / new(n)
  | bits (l : List Bool)           -- with_capacity(len) then set(i, l[i]) for every i
  | fromBytes (b : Bytes)          -- from_bytes / from_ssz_bytes
  | set (r i : Nat) (v : Bool)
  | get (r i : Nat)
  | shift (r n : Nat)              -- shift_up
  | diffin (r s : Nat)             -- difference_inplace
  | clone (r : Nat)
  | redec (r : Nat)                -- from_ssz_bytes(as_ssz_bytes(pool[r]))
  | union (r s : Nat)
  | inter (r s : Nat)
  | diff (r s : Nat)
  | subset (r s : Nat)
  | eq (r s : Nat)
deriving Repr, DecidableEq

inductive BOut where
  | pushed (bf : BF)               -- a new value was appended to the pool
  | mutated (ok : Bool) (bf : BF)  -- in-place operation on pool[r]: Ok/Err and the value afterwards
  | flag (b : Bool)
  | bit (o : Option Bool)
  | err | panic | badRef
deriving Repr, DecidableEq

def newOf (k : BKind) (n : Nat) : Option BF :=
  match k with
  | .variable N => BF.withCapacity N n
  | .fixed N => some (BF.newFixed N)
  | .dynamic => BF.newDyn n

def setAll : List Bool → Nat → BF → Option BF
  | [], _, bf => some bf
  | b :: bs, i, bf => match bf.set i b with
    | none => none
    | some bf' => setAll bs (i+1) bf'

/-- construct from a bit string by `with_capacity`/`new` followed by `set` -/
def ofBitsK (k : BKind) (l : List Bool) : Option BF :=
  match newOf k l.length with
  | none => none
  | some bf => if bf.len != l.length then none else setAll l 0 bf

def unionK (k : BKind) (a b : BF) : Res BF :=
  match k with
  | .variable N => BF.unionV N a b
  | .fixed N => .ok (BF.unionF N a b)
  | .dynamic => Res.ofOption (BF.unionD a b)

def interK (k : BKind) (a b : BF) : Res BF :=
  match k with
  | .variable N => BF.intersectionV N a b
  | .fixed N => BF.intersectionF N a b
  | .dynamic => Res.ofOption (BF.intersectionD a b)

def pushRes (pool : List BF) : Res BF → List BF × BOut
  | .ok bf => (pool ++ [bf], .pushed bf)
  | .err => (pool, .err)
  | .panic => (pool, .panic)

def BPool.step (k : BKind) (pool : List BF) : BOp → List BF × BOut
  | .cap n => pushRes pool (Res.ofOption (newOf k n))
  | .bits l => pushRes pool (Res.ofOption (ofBitsK k l))
  | .fromBytes b => pushRes pool (BF.fromBytes k b)
  | .set r i v => match pool[r]? with
    | none => (pool, .badRef)
    | some bf => match bf.set i v with
      | some bf' => (pool.set r bf', .mutated true bf')
      | none => (pool, .mutated false bf)
  | .get r i => match pool[r]? with
    | none => (pool, .badRef)
    | some bf => (pool, .bit (bf.get i))
  | .shift r n => match pool[r]? with
    | none => (pool, .badRef)
    | some bf => match bf.shiftUp n with
      | .ok bf' => (pool.set r bf', .mutated true bf')
      | .err => (pool, .mutated false bf)
      | .panic => (pool, .panic)
  | .diffin r s => match pool[r]?, pool[s]? with
    | some a, some b => let a' := a.differenceInplace b; (pool.set r a', .mutated true a')
    | _, _ => (pool, .badRef)
  | .clone r => match pool[r]? with
    | none => (pool, .badRef)
    | some bf => pushRes pool (.ok bf)
  | .redec r => match pool[r]? with
    | none => (pool, .badRef)
    | some bf => pushRes pool ((bf.intoBytes k).bind fun b => BF.fromBytes k b)
  | .union r s => match pool[r]?, pool[s]? with
    | some a, some b => pushRes pool (unionK k a b)
    | _, _ => (pool, .badRef)
  | .inter r s => match pool[r]?, pool[s]? with
    | some a, some b => pushRes pool (interK k a b)
    | _, _ => (pool, .badRef)
  | .diff r s => match pool[r]?, pool[s]? with
    | some a, some b => pushRes pool (.ok (a.difference b))
    | _, _ => (pool, .badRef)
  | .subset r s => match pool[r]?, pool[s]? with
    | some a, some b => (pool, .flag (a.isSubset b))
    | _, _ => (pool, .badRef)
  | .eq r s => match pool[r]?, pool[s]? with
    | some a, some b => (pool, .flag (decide (a = b)))
    | _, _ => (pool, .badRef)

/-- run a history from the empty pool, collecting the outputs -/
def BPool.run (k : BKind) : List BF → List BOp → List BF × List BOut
  | pool, [] => (pool, [])
  | pool, op :: ops =>
    let (pool', o) := BPool.step k pool op
    let (pool'', os) := BPool.run k pool' ops
    (pool'', o :: os)

end Ssz
