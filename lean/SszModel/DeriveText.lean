import SszModel.Derive
import SszModel.Text
/-
  Text syntax of definitions for the `derive` / `reject` correspondence groups.
    struct:  DS<c|t|-|x><e|->(<field>;<field>;...)      field   := <n|u>[s][d]<attrs>:<Ty>
    enum:    DE<u|g|t|-|x><s|->(<variant>|<variant>|..)  variant := <n|u>[p]:<Ty>,<Ty>,...   (p: `V()` / `V {}`)
-/
namespace Ssz.Text
open Ssz

def splitTop (sep : Char) (cs : List Char) : List (List Char) :=
  let rec go (cs : List Char) (depth : Nat) (cur : List Char) (acc : List (List Char)) : List (List Char) :=
    match cs with
    | [] => (cur.reverse :: acc).reverse
    | c :: r =>
      if c == '(' then go r (depth + 1) (c :: cur) acc
      else if c == ')' then go r (depth - 1) (c :: cur) acc
      else if c == sep && depth == 0 then go r depth [] (cur.reverse :: acc)
      else go r depth (c :: cur) acc
  go cs 0 [] []

def parseField (cs : List Char) : Option Field :=
  match splitTop ':' cs with
  | [flags, ty] =>
    match parseTy ty with
    | some (t, []) =>
      let named := flags.head? == some 'n'
      let attrs := natOfDigits (flags.filter Char.isDigit)
      some { ty := t, named := named, skipSer := flags.contains 's', skipDe := flags.contains 'd', attrs := attrs }
    | _ => none
  | _ => none

def parseVariant (cs : List Char) : Option Variant :=
  match splitTop ':' cs with
  | [flags, tys] =>
    let parts := if tys.isEmpty then [] else splitTop ',' tys
    (parts.mapM fun p => match parseTy p with | some (t, []) => some t | _ => none).map fun ts =>
      { fields := ts, named := flags.head? == some 'n', parens := flags.contains 'p' }
  | _ => none

def stripParens (cs : List Char) : Option (List Char) :=
  match cs with
  | '(' :: r => if r.getLast? == some ')' then some r.dropLast else none
  | _ => none

def parseDef (s : String) : Option Def :=
  match s.toList with
  | 'D' :: 'S' :: b :: e :: rest => do
    let inner ← stripParens rest
    let beh : Option StructBeh := match b with
      | 'c' => some .container | 't' => some .transparent | 'x' => some .invalid | _ => none
    let fields ← (if inner.isEmpty then some [] else (splitTop ';' inner).mapM parseField)
    pure (.struct_ beh (e == 'e') fields)
  | 'D' :: 'E' :: b :: e :: rest => do
    let inner ← stripParens rest
    let beh : Option EnumBeh := match b with
      | 'u' => some .union | 'g' => some .tag | 't' => some .transparent | 'x' => some .invalid | _ => none
    let vs ← (if inner.isEmpty then some [] else (splitTop '|' inner).mapM parseVariant)
    pure (.enum_ beh (e == 's') vs)
  | _ => none

def metaStr (t : Ty) : String := (if t.isFixed then "fixed " else "variable ") ++ toString t.fixedLen

end Ssz.Text
