import SszModel.Basic
/-
  bitfield.rs / bitfield/bitvector_dynamic.rs: one struct `{ bytes, len }` with three behaviours
  (`Variable<N>` = bitlist, `Fixed<N>` = bitvector, `Dynamic`). Byte-wise loops are kept as they
  are in the source; `Option` = `Result` (error kinds collapsed), `Res` where the source can panic
  (`expect`, `unwrap`, `unreachable!`, slice indexing).
-/
namespace Ssz

structure BF where
  bytes : Bytes
  len : Nat
deriving Repr, DecidableEq

/-- `*byte & (1 << (i % 8)) > 0` -/
def byteGet (x : UInt8) (k : Nat) : Bool := (x &&& ((1 : UInt8) <<< UInt8.ofNat k)) > 0
/-- `*byte |= 1 << (i % 8)` / `*byte &= !(1 << (i % 8))` -/
def byteSet (x : UInt8) (k : Nat) (v : Bool) : UInt8 :=
  if v then x ||| ((1 : UInt8) <<< UInt8.ofNat k) else x &&& ~~~((1 : UInt8) <<< UInt8.ofNat k)

def BF.get (bf : BF) (i : Nat) : Option Bool :=
  if i < bf.len then (bf.bytes[i / 8]?).map (byteGet · (i % 8)) else none

def BF.set (bf : BF) (i : Nat) (v : Bool) : Option BF :=
  if i < bf.len then
    match bf.bytes[i / 8]? with
    | none => none
    | some x => some { bf with bytes := bf.bytes.set (i / 8) (byteSet x (i % 8) v) }
  else none

/-- `u8::MAX.overflowing_shr(8 - (bit_len as u32 % 8)).0`: the shift amount is taken mod 8 -/
def rawMask (bitLen : Nat) : UInt8 := (0xFF : UInt8) >>> UInt8.ofNat ((8 - bitLen % 8) % 8)

/-- `Bitfield::from_raw_bytes` -/
def fromRawBytes (bytes : Bytes) (bitLen : Nat) : Option BF :=
  if bitLen = 0 then
    if bytes = [0] then some ⟨bytes, 0⟩ else none
  else if bytes.length ≠ bytesForBitLen bitLen then none
  else match bytes.getLast? with
    | none => none            -- `expect("Guarded against empty bytes")`: cannot happen, length ≥ 1
    | some last => if (last &&& ~~~(rawMask bitLen)) = 0 then some ⟨bytes, bitLen⟩ else none

/-- `byte.leading_zeros()` for `byte > 0` -/
def lz (x : UInt8) : Nat := 7 - x.toNat.log2

def highestSetBitGo : Bytes → Nat → Option Nat
  | [], _ => none
  | x :: rest, n => if x > 0 then some ((n - 1) * 8 + 7 - lz x) else highestSetBitGo rest (n - 1)

/-- `highest_set_bit` -/
def highestSetBit (bs : Bytes) : Option Nat := highestSetBitGo bs.reverse bs.length

def BF.highestSetBit (bf : BF) : Option Nat := Ssz.highestSetBit bf.bytes

/-- `SmallVec::resize(n, 0)` -/
def resizeZero (bs : Bytes) (n : Nat) : Bytes := bs.take n ++ List.replicate (n - bs.length) 0

/-! ### Variable<N> (BitList) -/

/-- `BitList::with_capacity` -/
def BF.withCapacity (N : Nat) (numBits : Nat) : Option BF :=
  if numBits ≤ N then some ⟨List.replicate (bytesForBitLen numBits) 0, numBits⟩ else none

/-- `BitList::into_bytes` -/
def BF.intoBytesV (bf : BF) : Res Bytes :=
  let bytes := resizeZero bf.bytes (bytesForBitLen (bf.len + 1))
  match fromRawBytes bytes (bf.len + 1) with
  | none => .panic                                   -- unreachable!()
  | some b => match b.set bf.len true with
    | none => .panic                                 -- expect("len must be in bounds for bitfield.")
    | some b' => .ok b'.bytes

/-- `BitList::from_bytes` for capacity `N` -/
def BF.fromBytesV (N : Nat) (bytes : Bytes) : Res BF :=
  match fromRawBytes bytes (bytes.length * 8) with
  | none => .err
  | some init =>
    match init.highestSetBit with
    | none => .err
    | some len =>
      if len / 8 + 1 ≠ bytes.length then .err
      else if len ≤ N then
        match init.set len false with
        | none => .panic                             -- expect("Bit has been confirmed to exist")
        | some cleared => Res.ofOption (fromRawBytes (cleared.bytes.take (bytesForBitLen len)) len)
      else .err

/-! ### Fixed<N> (BitVector) -/

def BF.newFixed (N : Nat) : BF := ⟨List.replicate (bytesForBitLen N) 0, N⟩
def BF.intoBytesF (bf : BF) : Bytes := bf.bytes
def BF.fromBytesF (N : Nat) (bytes : Bytes) : Option BF := fromRawBytes bytes N

/-! ### Dynamic -/

def BF.newDyn (len : Nat) : Option BF :=
  if len = 0 then none
  else if len % 8 ≠ 0 then none
  else some ⟨List.replicate (bytesForBitLen len) 0, len⟩

def BF.fromBytesWithLen (bytes : Bytes) (len : Nat) : Option BF :=
  if len ≠ bytes.length * 8 then none else fromRawBytes bytes len

/-- `<BitVectorDynamic as Decode>::from_ssz_bytes` -/
def BF.decodeDyn (bytes : Bytes) : Option BF :=
  if bytes.isEmpty then none else fromRawBytes bytes (bytes.length * 8)

/-! ### behaviour-independent operations -/

def BF.isZero (bf : BF) : Bool := bf.bytes.all (· == 0)

/-- `byte.count_ones()` -/
def countOnes (x : UInt8) : Nat := ((List.range 8).filter (fun k => x.toNat.testBit k)).length

def BF.numSetBits (bf : BF) : Nat := (bf.bytes.map countOnes).sum

/-- `BitIter`: `get(i)` until it fails -/
def BF.iterGo (bf : BF) : Nat → Nat → List Bool
  | 0, _ => []
  | fuel+1, i => match bf.get i with
    | some b => b :: BF.iterGo bf fuel (i+1)
    | none => []
def BF.iter (bf : BF) : List Bool := bf.iterGo (bf.len + 1) 0

/-- `for i in 0..min(..) { self.bytes[i] &= !other.bytes[i] }` -/
def diffBytes : Bytes → Bytes → Bytes
  | a :: as, b :: bs => (a &&& ~~~b) :: diffBytes as bs
  | as, [] => as
  | [], _ => []

def BF.differenceInplace (a b : BF) : BF := { a with bytes := diffBytes a.bytes b.bytes }
def BF.difference (a b : BF) : BF := a.differenceInplace b      -- clone, then in place
def BF.isSubset (a b : BF) : Bool := (a.difference b).isZero

/-- `for i in 0..result.bytes.len() { result.bytes[i] = self.bytes[i] & other.bytes[i] }`:
    indexing panics when an operand is shorter than the result -/
def andBytesIdx (n : Nat) (a b : Bytes) : Res Bytes :=
  mapRes (fun i => match a[i]?, b[i]? with
    | some x, some y => .ok (x &&& y)
    | _, _ => .panic) (List.range n)

/-- `self.bytes.get(i).copied().unwrap_or(0) | other.bytes.get(i).copied().unwrap_or(0)` -/
def orBytesGet (n : Nat) (a b : Bytes) : Bytes :=
  (List.range n).map fun i => (a[i]?.getD 0) ||| (b[i]?.getD 0)
def andBytesGet (n : Nat) (a b : Bytes) : Bytes :=
  (List.range n).map fun i => (a[i]?.getD 0) &&& (b[i]?.getD 0)

/-- `BitList::intersection` (`expect("min len always less than N")`) -/
def BF.intersectionV (N : Nat) (a b : BF) : Res BF :=
  match BF.withCapacity N (min a.len b.len) with
  | none => .panic
  | some r => (andBytesIdx r.bytes.length a.bytes b.bytes).map fun bs => { r with bytes := bs }

/-- `BitList::union` (`expect("max len always less than N")`) -/
def BF.unionV (N : Nat) (a b : BF) : Res BF :=
  match BF.withCapacity N (max a.len b.len) with
  | none => .panic
  | some r => .ok { r with bytes := orBytesGet r.bytes.length a.bytes b.bytes }

def BF.intersectionF (N : Nat) (a b : BF) : Res BF :=
  let r := BF.newFixed N
  (andBytesIdx r.bytes.length a.bytes b.bytes).map fun bs => { r with bytes := bs }

def BF.unionF (N : Nat) (a b : BF) : BF :=
  let r := BF.newFixed N
  { r with bytes := orBytesGet r.bytes.length a.bytes b.bytes }

def BF.intersectionD (a b : BF) : Option BF :=
  (BF.newDyn (max a.len b.len)).map fun r => { r with bytes := andBytesGet r.bytes.length a.bytes b.bytes }

def BF.unionD (a b : BF) : Option BF :=
  (BF.newDyn (max a.len b.len)).map fun r => { r with bytes := orBytesGet r.bytes.length a.bytes b.bytes }

/-- first loop of `shift_up`: `for i in (n..len).rev() { self.set(i, self.get(i - n)?)?; }` -/
def shiftLoop1 (n : Nat) : List Nat → BF → Option BF
  | [], bf => some bf
  | i :: is, bf => match bf.get (i - n) with
    | none => none
    | some v => match bf.set i v with
      | none => none
      | some bf' => shiftLoop1 n is bf'

/-- second loop: `for i in 0..n { self.set(i, false).unwrap(); }` -/
def shiftLoop2 : List Nat → BF → Res BF
  | [], bf => .ok bf
  | i :: is, bf => match bf.set i false with
    | none => .panic
    | some bf' => shiftLoop2 is bf'

/-- `shift_up`; on `Err` the receiver may already have been modified by the first loop, so the
    model returns the state together with the verdict -/
def BF.shiftUp (bf : BF) (n : Nat) : Res BF :=
  if n ≤ bf.len then
    match shiftLoop1 n ((List.range (bf.len - n)).reverse.map (· + n)) bf with
    | none => .err
    | some bf' => shiftLoop2 (List.range n) bf'
  else .err

/-- `BitList<N>::resize::<M>` -/
def resizeLoop : List Bool → Nat → BF → Option BF
  | [], _, r => some r
  | b :: bs, i, r => match r.set i b with
    | none => none
    | some r' => resizeLoop bs (i+1) r'

def BF.resize (N M : Nat) (bf : BF) : Option BF :=
  if N > M then none
  else match BF.withCapacity M M with
    | none => none
    | some r => resizeLoop bf.iter 0 r

/-- `impl Display for BitVector`: one character per bit, lowest index first -/
def BF.display (bf : BF) : Bytes := bf.iter.map fun b => if b then 49 else 48

/-- what `Hash` feeds the hasher: the byte slice, then `len` -/
def BF.hashInput (bf : BF) : Bytes × Nat := (bf.bytes, bf.len)

/-! ### SSZ and byte-level entry points per behaviour -/

inductive BKind where
  | variable (N : Nat) | fixed (N : Nat) | dynamic
deriving Repr, DecidableEq

/-- `into_bytes` (= `as_ssz_bytes`) -/
def BF.intoBytes : BKind → BF → Res Bytes
  | .variable _, bf => bf.intoBytesV
  | .fixed _, bf => .ok bf.intoBytesF
  | .dynamic, bf => .ok bf.bytes

/-- `from_bytes` / `from_ssz_bytes` -/
def BF.fromBytes : BKind → Bytes → Res BF
  | .variable N, b => BF.fromBytesV N b
  | .fixed N, b => Res.ofOption (BF.fromBytesF N b)
  | .dynamic, b => Res.ofOption (BF.decodeDyn b)

/-- behaviour invariant on the length -/
def BKind.lenOk : BKind → Nat → Bool
  | .variable N, l => l ≤ N
  | .fixed N, l => l == N
  | .dynamic, l => l > 0 && l % 8 == 0

/-! ### `Arbitrary` (feature `arbitrary`), after the `fix:` commit sizing the buffer in bytes -/

/-- `Unstructured::fill_buffer`: copies what is there, zero-fills the rest; returns (buffer, rest) -/
def fillBuffer (data : Bytes) (n : Nat) : Bytes × Bytes :=
  (data.take n ++ List.replicate (n - data.length) 0, data.drop n)

def BF.arbitraryFixed (N : Nat) (data : Bytes) : Res BF :=
  let (buf, _) := fillBuffer data (bytesForBitLen N)
  Res.ofOption (BF.fromBytesF N buf)

def BF.arbitraryVariable (N : Nat) (data : Bytes) : Res BF :=
  let (w, rest) := fillBuffer data 8
  let size := min (fromLE w) N
  let (buf, _) := fillBuffer rest size
  BF.fromBytesV N buf

/-! ### specification view -/

def tb (x : UInt8) (k : Nat) : Bool := x.toNat.testBit k
def bit (bs : Bytes) (i : Nat) : Bool := tb (bs[i / 8]?.getD 0) (i % 8)
def BF.abs (bf : BF) : List Bool := (List.range bf.len).map (bit bf.bytes)
def BF.Inv (bf : BF) : Prop :=
  bf.bytes.length = bytesForBitLen bf.len ∧ ∀ i, bf.len ≤ i → bit bf.bytes i = false

/-- executable form of `Inv` -/
def BF.invB (bf : BF) : Bool :=
  bf.bytes.length == bytesForBitLen bf.len &&
    (List.range (8 * bf.bytes.length - bf.len)).all (fun j => !(bit bf.bytes (bf.len + j)))

/-- builds a bitfield from a `List Bool` by `set` on a zeroed field (used to interpret values) -/
def BF.ofBitsGo : List Bool → Nat → BF → BF
  | [], _, bf => bf
  | b :: bs, i, bf => BF.ofBitsGo bs (i+1) ((bf.set i b).getD bf)
def BF.ofBits (l : List Bool) : BF :=
  BF.ofBitsGo l 0 ⟨List.replicate (bytesForBitLen l.length) 0, l.length⟩

end Ssz
