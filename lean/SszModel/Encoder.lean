import SszModel.Offset
/-
  encode.rs:87-134 `SszEncoder { offset, buf, variable_bytes }`.
  `buf` is the caller's buffer and may already hold bytes; `append_parameterized` hands either
  `buf` or the side buffer to the item's `ssz_append` closure, which is modelled as a function
  `Bytes → Bytes` returning the buffer after the append.
-/
namespace Ssz

structure Enc where
  offset : Nat
  buf : Bytes
  var : Bytes
deriving Repr

/-- `SszEncoder::container(buf, num_fixed_bytes)` -/
def Enc.container (buf : Bytes) (numFixed : Nat) : Enc := { offset := numFixed, buf := buf, var := [] }

/-- `append_parameterized(is_ssz_fixed_len, ssz_append)` -/
def Enc.appendWith (e : Enc) (isFixed : Bool) (f : Bytes → Bytes) : Enc :=
  if isFixed then { e with buf := f e.buf }
  else { e with buf := e.buf ++ encodeLength (e.offset + e.var.length), var := f e.var }

/-- `append_parameterized` for an item whose `ssz_append` is known to add exactly `item`. -/
def Enc.append (e : Enc) (isFixed : Bool) (item : Bytes) : Enc :=
  if isFixed then { e with buf := e.buf ++ item }
  else { e with buf := e.buf ++ encodeLength (e.offset + e.var.length), var := e.var ++ item }

/-- `finalize` -/
def Enc.finalize (e : Enc) : Bytes := e.buf ++ e.var

end Ssz
