/-
  Basic definitions shared by the whole model: byte strings, the three-valued result type
  (`ok` / `err` / `panic`), little-endian integers, `slice::chunks`.
  No imports: this library is linked into the native `driver` executable.
-/
namespace Ssz

abbrev Bytes := List UInt8

/-- Result of a modelled Rust function: a value, an `Err(_)` (variants are deliberately not
    modelled), or a panic (slice index out of range, `chunks(0)`, overflow, `unwrap`, ...). -/
inductive Res (α : Type) where
  | ok (a : α) | err | panic
deriving Repr, DecidableEq

def Res.bind {α β} (r : Res α) (f : α → Res β) : Res β :=
  match r with | .ok a => f a | .err => .err | .panic => .panic

def Res.map {α β} (f : α → β) (r : Res α) : Res β :=
  match r with | .ok a => .ok (f a) | .err => .err | .panic => .panic

def Res.isOk {α} : Res α → Bool | .ok _ => true | _ => false

def Res.ofOption {α} : Option α → Res α | some a => .ok a | none => .err

@[simp] theorem Res.bind_ok {α β} (a : α) (f : α → Res β) : (Res.ok a).bind f = f a := rfl
@[simp] theorem Res.bind_err {α β} (f : α → Res β) : (Res.err : Res α).bind f = .err := rfl
@[simp] theorem Res.bind_panic {α β} (f : α → Res β) : (Res.panic : Res α).bind f = .panic := rfl
@[simp] theorem Res.map_ok {α β} (a : α) (f : α → β) : (Res.ok a).map f = .ok (f a) := rfl
@[simp] theorem Res.map_err {α β} (f : α → β) : (Res.err : Res α).map f = .err := rfl
@[simp] theorem Res.map_panic {α β} (f : α → β) : (Res.panic : Res α).map f = .panic := rfl

/-- `n.to_le_bytes()[0..k]` -/
def le (k : Nat) (n : Nat) : Bytes :=
  match k with
  | 0 => []
  | k+1 => UInt8.ofNat (n % 256) :: le k (n / 256)

/-- `uN::from_le_bytes` -/
def fromLE : Bytes → Nat
  | [] => 0
  | b :: bs => b.toNat + 256 * fromLE bs

/-- `slice.chunks(n)`: panics for `n = 0`; the last chunk may be short. -/
def chunksGo (n : Nat) (b : Bytes) : Nat → List Bytes
  | 0 => []
  | fuel+1 => if b.isEmpty then [] else b.take n :: chunksGo n (b.drop n) fuel

def chunks (n : Nat) (b : Bytes) : Res (List Bytes) :=
  if n = 0 then .panic else .ok (chunksGo n b b.length)

/-- `iter.map(f).collect::<Result<_,_>>()`: stops at the first error/panic. -/
def mapRes {α β} (f : α → Res β) : List α → Res (List β)
  | [] => .ok []
  | a :: as => match f a with
    | .ok b => (match mapRes f as with | .ok bs => .ok (b :: bs) | .err => .err | .panic => .panic)
    | .err => .err
    | .panic => .panic

/-- `max(1, bit_len.div_ceil(8))` (bitfield.rs `bytes_for_bit_len`) -/
def bytesForBitLen (n : Nat) : Nat := max 1 ((n + 7) / 8)

end Ssz
