import SszModel.Text
import SszModel.Serde
/-
  The bitfield pool machine of the `bitops` correspondence group: a history of operations over a
  pool of bitfields (operands are earlier results), with the observation printed after every step.
  Text glue only; the operations themselves are the model functions of `Bitfield.lean`.
-/
namespace Ssz.Text
open Ssz

def parseKind (s : String) : Option BKind :=
  match s.toList with
  | ['D'] => some .dynamic
  | 'V' :: ds => (parseNat ds).bind fun (n, r) => if r.isEmpty then some (.variable n) else none
  | 'F' :: ds => (parseNat ds).bind fun (n, r) => if r.isEmpty then some (.fixed n) else none
  | _ => none

def parseBits (s : String) : Option (List Bool) :=
  match s.toList with
  | 'b' :: r => if r.all (fun c => c == '0' || c == '1') then some (r.map (· == '1')) else none
  | _ => none

/-- the observation of one bitfield: everything C11 lists -/
def obs (k : BKind) (bf : BF) : String :=
  let enc := match bf.intoBytes k with | .ok b => toHex b | .err => "err" | .panic => "panic"
  let hs := le 8 bf.bytes.length ++ bf.bytes ++ le 8 bf.len
  s!"{bf.len}|b{bitsStr bf.iter}|{bf.numSetBits}|" ++
    (match bf.highestSetBit with | some i => toString i | none => "-") ++
    s!"|{bf.isZero}|{toHex bf.bytes}|{enc}|{toHex hs}"

def bfStr (bf : BF) : String := "b" ++ bitsStr bf.abs ++ " " ++ toString bf.len

def newOf (k : BKind) (n : Nat) : Option BF :=
  match k with
  | .variable N => BF.withCapacity N n
  | .fixed N => some (BF.newFixed N)
  | .dynamic => BF.newDyn n

/-- construct from a bit string by `with_capacity`/`new` followed by `set` -/
def ofBitsK (k : BKind) (l : List Bool) : Option BF :=
  match newOf k l.length with
  | none => none
  | some bf => if bf.len != l.length then none else
      (List.range l.length).foldl (fun acc i => acc.bind fun b => b.set i (l.getD i false)) (some bf)

def unionK (k : BKind) (a b : BF) : Res BF :=
  match k with
  | .variable N => BF.unionV N a b
  | .fixed N => .ok (BF.unionF N a b)
  | .dynamic => Res.ofOption (BF.unionD a b)

def interK (k : BKind) (a b : BF) : Res BF :=
  match k with
  | .variable N => BF.intersectionV N a b
  | .fixed N => BF.intersectionF N a b
  | .dynamic => Res.ofOption (BF.intersectionD a b)

def stepOp (k : BKind) (pool : Array BF) (op : List String) : Array BF × String :=
  let get (s : String) : Option BF := s.toNat?.bind fun i => pool[i]?
  let push (r : Res BF) : Array BF × String :=
    match r with
    | .ok bf => (pool.push bf, obs k bf)
    | .err => (pool, "err")
    | .panic => (pool, "panic")
  match op with
  | ["cap", n] => match n.toNat? with
    | some n => push (Res.ofOption (newOf k n))
    | none => (pool, "bad-op")
  | ["bits", b] => match parseBits b with
    | some l => push (Res.ofOption (ofBitsK k l))
    | none => (pool, "bad-op")
  | ["from", hex] => match fromHex hex with
    | some b => push (BF.fromBytes k b)
    | none => (pool, "bad-op")
  | ["set", r, i, v] => match r.toNat?, get r, i.toNat? with
    | some ri, some bf, some i =>
      (match bf.set i (v == "1") with
       | some bf' => (pool.set! ri bf', "ok " ++ obs k bf')
       | none => (pool, "err " ++ obs k bf))
    | _, _, _ => (pool, "bad-op")
  | ["get", r, i] => match get r, i.toNat? with
    | some bf, some i => (pool, match bf.get i with | some b => toString b | none => "err")
    | _, _ => (pool, "bad-op")
  | ["shift", r, n] => match r.toNat?, get r, n.toNat? with
    | some ri, some bf, some n =>
      (match bf.shiftUp n with
       | .ok bf' => (pool.set! ri bf', "ok " ++ obs k bf')
       | .err => (pool, "err " ++ obs k bf)
       | .panic => (pool, "panic"))
    | _, _, _ => (pool, "bad-op")
  | ["diffin", r, s] => match r.toNat?, get r, get s with
    | some ri, some a, some b =>
      let a' := a.differenceInplace b
      (pool.set! ri a', "ok " ++ obs k a')
    | _, _, _ => (pool, "bad-op")
  | ["clone", r] => match get r with
    | some bf => push (.ok bf)
    | none => (pool, "bad-op")
  | ["redec", r] => match get r with
    | some bf => push ((bf.intoBytes k).bind fun b => BF.fromBytes k b)
    | none => (pool, "bad-op")
  | ["union", r, s] => match get r, get s with
    | some a, some b => push (unionK k a b)
    | _, _ => (pool, "bad-op")
  | ["inter", r, s] => match get r, get s with
    | some a, some b => push (interK k a b)
    | _, _ => (pool, "bad-op")
  | ["diff", r, s] => match get r, get s with
    | some a, some b => push (.ok (a.difference b))
    | _, _ => (pool, "bad-op")
  | ["subset", r, s] => match get r, get s with
    | some a, some b => (pool, toString (a.isSubset b))
    | _, _ => (pool, "bad-op")
  | ["eq", r, s] => match get r, get s with
    | some a, some b => (pool, toString (decide (a = b)))
    | _, _ => (pool, "bad-op")
  | _ => (pool, "bad-op")

def runBitOps (k : BKind) (ops : String) : String :=
  let (_, outs) := (ops.splitOn ";").foldl (fun (acc : Array BF × List String) op =>
    let (pool, o) := stepOp k acc.1 (op.splitOn " ")
    (pool, o :: acc.2)) (#[], [])
  ";".intercalate outs.reverse

end Ssz.Text
