import SszModel.Text
import SszModel.Serde
import SszModel.BitPool
/-
  The bitfield pool machine of the `bitops` correspondence group: a history of operations over a
  pool of bitfields (operands are earlier results), with the observation printed after every step.
  Text glue only; the operations themselves are the model functions of `Bitfield.lean`.
-/
namespace Ssz.Text
open Ssz

def parseKind (s : String) : Option BKind :=
  match s.toList with
  | ['D'] => some .dynamic
  | 'V' :: ds => (parseNat ds).bind fun (n, r) => if r.isEmpty then some (.variable n) else none
  | 'F' :: ds => (parseNat ds).bind fun (n, r) => if r.isEmpty then some (.fixed n) else none
  | _ => none

def parseBits (s : String) : Option (List Bool) :=
  match s.toList with
  | 'b' :: r => if r.all (fun c => c == '0' || c == '1') then some (r.map (· == '1')) else none
  | _ => none

/-- the observation of one bitfield: everything C11 lists -/
def obs (k : BKind) (bf : BF) : String :=
  let enc := match bf.intoBytes k with | .ok b => toHex b | .err => "err" | .panic => "panic"
  let hs := le 8 bf.bytes.length ++ bf.bytes ++ le 8 bf.len
  s!"{bf.len}|b{bitsStr bf.iter}|{bf.numSetBits}|" ++
    (match bf.highestSetBit with | some i => toString i | none => "-") ++
    s!"|{bf.isZero}|{toHex bf.bytes}|{enc}|{toHex hs}"

def bfStr (bf : BF) : String := "b" ++ bitsStr bf.abs ++ " " ++ toString bf.len

def parseOp (op : List String) : Option BOp :=
  match op with
  | ["cap", n] => n.toNat?.map BOp.cap
  | ["bits", b] => (parseBits b).map BOp.bits
  | ["from", hex] => (fromHex hex).map BOp.fromBytes
  | ["set", r, i, v] => do let r ← r.toNat?; let i ← i.toNat?; pure (BOp.set r i (v == "1"))
  | ["get", r, i] => do let r ← r.toNat?; let i ← i.toNat?; pure (BOp.get r i)
  | ["shift", r, n] => do let r ← r.toNat?; let n ← n.toNat?; pure (BOp.shift r n)
  | ["diffin", r, s] => do let r ← r.toNat?; let s ← s.toNat?; pure (BOp.diffin r s)
  | ["clone", r] => r.toNat?.map BOp.clone
  | ["redec", r] => r.toNat?.map BOp.redec
  | ["union", r, s] => do let r ← r.toNat?; let s ← s.toNat?; pure (BOp.union r s)
  | ["inter", r, s] => do let r ← r.toNat?; let s ← s.toNat?; pure (BOp.inter r s)
  | ["diff", r, s] => do let r ← r.toNat?; let s ← s.toNat?; pure (BOp.diff r s)
  | ["subset", r, s] => do let r ← r.toNat?; let s ← s.toNat?; pure (BOp.subset r s)
  | ["eq", r, s] => do let r ← r.toNat?; let s ← s.toNat?; pure (BOp.eq r s)
  | _ => none

def outStr (k : BKind) : BOut → String
  | .pushed bf => obs k bf
  | .mutated ok bf => (if ok then "ok " else "err ") ++ obs k bf
  | .flag b => toString b
  | .bit (some b) => toString b
  | .bit none => "err"
  | .err => "err"
  | .panic => "panic"
  | .badRef => "bad-op"

def runBitOps (k : BKind) (ops : String) : String :=
  match (ops.splitOn ";").mapM (fun op => parseOp (op.splitOn " ")) with
  | none => "bad-op"
  | some bops => ";".intercalate ((BPool.run k [] bops).2.map (outStr k))

end Ssz.Text
