import SszModel.Codec
/-
  Independent reference: the SSZ serializer written the way the specification text writes it
  (consensus-specs `ssz/simple-serialize.md`: `fixed_parts`, `variable_parts`, `variable_offsets`,
  concatenation), plus the library mappings named in property C03. Nothing here uses the incremental
  encoder, the builder or the `{bytes, len}` bitfield representation of the model.
-/
namespace Ssz.Spec

/-- `value.to_bytes(k, "little")` -/
def uintBytes (k n : Nat) : Bytes := (List.range k).map fun i => UInt8.ofNat ((n / 256 ^ i) % 256)

/-- `array[i // 8] |= value[i] << (i % 8)` for all i, over `nbytes` zero bytes -/
def packBits (bits : List Bool) (nbytes : Nat) : Bytes :=
  (List.range nbytes).map fun j =>
    UInt8.ofNat (((List.range 8).map fun k => if bits.getD (8 * j + k) false then 2 ^ k else 0).sum)

mutual
/-- `is_variable_size` of the schema -/
def isVariable : Ty → Bool
  | .uint _ | .bool | .nonZeroUsize | .bytesN _ | .tagEnum _ | .bitvector _ => false
  | .byteList | .list _ _ | .option _ | .union _ | .bitlist _ | .bitvectorDyn | .legacyOption _
  | .transparentEnum _ => true
  | .tuple ts => anyVariable ts
  | .container ts => anyVariable ts
def anyVariable : List Ty → Bool
  | [] => false
  | t :: ts => isVariable t || anyVariable ts
end

/-- the `fixed_parts / variable_offsets / variable_parts` construction of the specification, on
    the list of (is_variable_size, serialization) of the elements -/
def layout (parts : List (Bool × Bytes)) : Bytes :=
  let fixedLengths := parts.map fun p => if p.1 then 4 else p.2.length
  let variableLengths := parts.map fun p => if p.1 then p.2.length else 0
  let offsets := (List.range parts.length).map fun i => fixedLengths.sum + (variableLengths.take i).sum
  let fixedParts := (parts.zip offsets).map fun po => if po.1.1 then uintBytes 4 po.2 else po.1.2
  let variableParts := parts.map fun p => if p.1 then p.2 else []
  fixedParts.flatten ++ variableParts.flatten

mutual
/-- `serialize(value)` for the schema `t` -/
def ser : Ty → Val → Bytes
  | .uint k, .uint n => uintBytes k n
  | .bool, .bool b => [if b then 1 else 0]
  | .nonZeroUsize, .uint n => uintBytes 8 n                       -- uint64
  | .bytesN _, .bytes l => l                                      -- Vector[byte, N]
  | .byteList, .bytes l => l                                      -- List[byte, _]
  | .list _ t, .list vs => layout (serAll t vs)                   -- List[T, _]; sets/maps: entries ascending
  | .option _, .none => [0]                                       -- Union[None, T]
  | .option t, .some v => 1 :: ser t v
  | .tuple ts, .tuple vs => layout (serFields ts vs)              -- Container
  | .container ts, .tuple vs => layout (serFields ts vs)
  | .union ts, .union i v => UInt8.ofNat i :: serNth ts i v
  | .tagEnum _, .tag i => [UInt8.ofNat i]                         -- uint8
  | .transparentEnum ts, .union i v => serNth ts i v              -- the inner value
  | .bitvector n, .bits l => packBits l (max 1 ((n + 7) / 8))     -- Bitvector[N] (one zero byte for N = 0)
  | .bitlist _, .bits l => packBits (l ++ [true]) (l.length / 8 + 1)
  | .bitvectorDyn, .bits l => packBits l (l.length / 8)
  | .legacyOption _, .none => uintBytes 4 0
  | .legacyOption t, .some v => uintBytes 4 1 ++ ser t v
  | _, _ => []
def serAll (t : Ty) : List Val → List (Bool × Bytes)
  | [] => []
  | v :: vs => (isVariable t, ser t v) :: serAll t vs
def serFields : List Ty → List Val → List (Bool × Bytes)
  | t :: ts, v :: vs => (isVariable t, ser t v) :: serFields ts vs
  | _, _ => []
def serNth : List Ty → Nat → Val → Bytes
  | [], _, _ => []
  | t :: _, 0, v => ser t v
  | _ :: ts, i+1, v => serNth ts i v
end

/-- validity of a bitlist byte string as property C14 states it -/
def bitlistValid (N : Nat) (b : Bytes) : Bool :=
  match b.getLast? with
  | none => false
  | some last => last != 0 && decide (8 * (b.length - 1) + last.toNat.log2 ≤ N)

/-- validity of a bitvector byte string: exactly `max 1 ⌈N/8⌉` bytes, no bit at or above `N` -/
def bitvectorValid (N : Nat) (b : Bytes) : Bool :=
  b.length == max 1 ((N + 7) / 8) &&
    (List.range (8 * b.length - N)).all fun j => !((b.getD ((N + j) / 8) 0).toNat.testBit ((N + j) % 8))

/-- bits of a byte string, LSB first -/
def bitsOf (b : Bytes) (n : Nat) : List Bool :=
  (List.range n).map fun i => (b.getD (i / 8) 0).toNat.testBit (i % 8)

end Ssz.Spec
